"""Contracts for the encrypted-VMX path of dissect/hypervisor/descriptor/vmx.py (C15).

Specification (module docstring, observed files, RFC 2104 / RFC 8018 / NIST SP 800-38A):
  blob      = IV(16) || AES-CBC-encrypt(key, IV, pkcs7(plaintext)) || first `tag size` bytes of HMAC-hash(key, plaintext)
  tag size  = 20 (HMAC-SHA-1), 16 (HMAC-SHA-1-128: SHA-1 truncated to 128 bits), 32 (HMAC-SHA-256)
  phrase key = PBKDF2-HMAC-<hash>(passphrase utf-8, salt, rounds, dkLen = 16/24/32 for AES-128/192/256)

Cryptographic primitives are *assumed* (A4) through callee contracts:
  cipher.decrypt(x)            -> ValueError unless len(x) % 16 == 0; returns DEC, the CBC decryption of x under the cipher's (key, iv)
  hmac.digest(key, msg, alg)   -> the full digest HM of `alg` (20 / 32 bytes)
  hashlib.pbkdf2_hmac(...)     -> dkLen bytes
Call-site obligations pin every argument to the specified field (key, IV = bytes 0..16, ciphertext = bytes 16..N-tag, MAC message =
the plaintext that is returned), so what is proved is: for *all* lengths and contents, (round trip) a blob built per the
specification decrypts to exactly the plaintext without an exception, and (authentication) any normal return implies that the tag
bytes equal the truncated digest of exactly the returned bytes under the caller's key and that the result is the PKCS#7-unpadded CBC
plaintext.  "Any altered byte makes unlocking fail" then rests on the collision/forgery resistance of HMAC and on AES being a
permutation -- not provable, exercised by the bounded block (real AES / HMAC / PBKDF2, every single-byte alteration)."""
from __future__ import annotations

import importlib

import z3

from pyvc import driver
from .common import *

FILE = "dissect/hypervisor/descriptor/vmx.py"
MOD = "dissect.hypervisor.descriptor.vmx"
# specification tables (independent of the module's own): mac name -> (hash, full digest size, stored tag size)
MACS = {"HMAC-SHA-1": ("sha1", 20, 20), "HMAC-SHA-1-128": ("sha1", 20, 16), "HMAC-SHA-256": ("sha256", 32, 32)}
KDFS = {"PBKDF2-HMAC-SHA-1": "sha1", "PBKDF2-HMAC-SHA-256": "sha256"}
CIPHERS = {"AES-128": 16, "AES-192": 24, "AES-256": 32}


def fresh_bytes_(name):
    from pyvc.engine import fresh_bytes

    return fresh_bytes(name)


def same_bytes(a, b):
    """goal: the byte strings a and b are equal (length, and content at an arbitrary index)"""
    if a is b:
        return z3.BoolVal(True)
    if not isinstance(a, BytesV) or not isinstance(b, BytesV):
        return z3.BoolVal(False)
    return z3.And(a.n == b.n, forall_k(a.n, lambda k: a.at(k) == b.at(k)))


def real_table(name):
    return getattr(importlib.import_module(MOD), name)


def table_item(tname, conv):
    def h(eng, st, idx, node):
        if not isinstance(idx, StrV):
            raise Unsupported(f"{tname}[..] with a non-constant key")
        t = real_table(tname)  # the table of the repository under check
        if idx.s not in t:
            eng.may_raise("KeyError", st, z3.BoolVal(False), node)
            raise Unsupported("unreachable")
        return conv(t[idx.s])

    return h


class DecModel(Model):
    """_decrypt_hmac(key, data, digest) for one MAC name"""

    def __init__(self, mac, mode):
        super().__init__()
        self.mac, self.mode = mac, mode
        self.alg, self.dlen, self.size = MACS[mac]
        self.data = fresh_bytes_("data")
        self.key = fresh_bytes_("key")
        self.N = self.data.n
        self.DEC = z3.Array("DEC", I, I)
        self.HM = z3.Array("HM", I, I)
        self.C = z3.Array("C", I, I)
        self.L = z3.Int("L")
        self.globals["HMAC_MAP"] = ObjV("HMAC_MAP")
        self.items["HMAC_MAP"] = table_item("HMAC_MAP", lambda v: TupleV([StrV(v[0]), IntV(z3.IntVal(int(v[1])))]))
        self.globals["hmac"] = ObjV("hmac")
        self.methods[("hmac", "digest")] = self.hmac_digest
        self.global_calls["_create_cipher"] = self.create_cipher
        self.methods[("cipher", "decrypt")] = self.decrypt
        self.truthy["cipher"] = z3.BoolVal(True)

    def requires(self):
        N, L, size = self.N, self.L, self.size
        k = K
        hyps = [z3.And(self.key.n >= 16, self.key.n <= 32), z3.ForAll([k], z3.And(z3.Select(self.DEC, k) >= 0, z3.Select(self.DEC, k) <= 255)),
                z3.ForAll([k], z3.And(self.data.at(k) >= 0, self.data.at(k) <= 255))]
        if self.mode == "roundtrip":
            q, r = z3.Ints("qL rL")
            pad = 16 - r
            self.pad = pad
            hyps += [L >= 0, L == 16 * q + r, 0 <= r, r < 16, q >= 0, N == 16 + L + pad + size,
                     z3.ForAll([k], z3.Implies(z3.And(0 <= k, k < L), z3.Select(self.DEC, k) == z3.Select(self.C, k))),
                     z3.ForAll([k], z3.Implies(z3.And(L <= k, k < L + pad), z3.Select(self.DEC, k) == pad))]
            hyps += [self.data.at(N - size + j) == z3.Select(self.HM, j) for j in range(size)]
        elif self.mode == "auth":
            hyps += [N >= 32 + size]
        else:  # short
            hyps += [N < 32 + size]
        return hyps

    # ---- callee contracts (A4) with call-site obligations
    def create_cipher(self, eng, st, args, node):
        key, iv = args
        eng.ob("callsite.cipher_key_is_the_key_argument", st, same_bytes(key, self.key), node, tag="")
        if self.mode != "short":
            eng.ob("callsite.iv_is_bytes_0_to_16", st, z3.And(iv.n == 16, forall_k(16, lambda k: iv.at(k) == self.data.at(k))), node, tag="")
        return ObjV("cipher")

    def decrypt(self, eng, st, args, node):
        (x,) = args
        N, size = self.N, self.size
        if self.mode != "short":
            eng.ob("callsite.ciphertext_is_bytes_16_to_N_minus_tag", st, z3.And(x.n == N - 16 - size, forall_k(x.n, lambda k: x.at(k) == self.data.at(16 + k))), node, tag="")
        q, r = eng.euclid(st, x.n, z3.IntVal(16))
        eng.may_raise("ValueError", st, r == 0, node)  # pycryptodome: "Data must be padded to 16 byte boundary in CBC mode"
        st.ghost["ct_len"] = x.n
        return BytesV(x.n, lambda i: z3.Select(self.DEC, i))

    def hmac_digest(self, eng, st, args, node):
        key, msg, alg = args
        eng.ob("callsite.mac_key_is_the_key_argument", st, same_bytes(key, self.key), node, tag="")
        eng.ob("callsite.mac_hash_is_the_specified_one", st, z3.BoolVal(isinstance(alg, StrV) and alg.s == self.alg), node, tag="")
        if self.mode == "roundtrip":
            eng.ob("callsite.mac_is_computed_over_the_plaintext", st, z3.And(msg.n == self.L, forall_k(self.L, lambda k: msg.at(k) == z3.Select(self.C, k))), node, tag="")
        st.ghost["mac_msg"] = msg
        st.ghost["mac_calls"] = st.ghost.get("mac_calls", 0) + 1
        return BytesV(z3.IntVal(self.dlen), lambda i: z3.Select(self.HM, i))


def _decrypt_hmac(mac, mode):
    def params(m):
        return {"key": m.key, "data": m.data, "digest": StrV(mac)}

    def post(eng, st, rv):
        m = eng.model
        if mode == "short":
            return [("input_shorter_than_iv_block_tag_is_refused", z3.BoolVal(False))]
        if not isinstance(rv, BytesV):
            return [("returns_bytes", z3.BoolVal(False))]
        if mode == "roundtrip":
            return [("plaintext_length", rv.n == m.L), ("plaintext_content", forall_k(m.L, lambda k: rv.at(k) == z3.Select(m.C, k)))]
        n_ct = st.ghost.get("ct_len")
        msg = st.ghost.get("mac_msg")
        if n_ct is None or msg is None or st.ghost.get("mac_calls") != 1:
            return [("decrypts_and_computes_exactly_one_mac_before_returning", z3.BoolVal(False))]
        p = z3.Select(m.DEC, n_ct - 1)
        return [("tag_bytes_equal_the_truncated_digest", z3.And(*[m.data.at(m.N - m.size + j) == z3.Select(m.HM, j) for j in range(m.size)])),
                ("mac_message_is_the_returned_plaintext", same_bytes(msg, rv)),
                ("result_is_a_prefix_of_the_cbc_plaintext", z3.And(rv.n <= n_ct, forall_k(rv.n, lambda k: rv.at(k) == z3.Select(m.DEC, k)))),
                ("pkcs7_length", z3.And(p >= 1, z3.If(p <= 16, rv.n == n_ct - p, rv.n == n_ct))),
                ("pkcs7_every_padding_byte_checked", z3.Implies(p <= 16, forall_k(p, lambda k: z3.Select(m.DEC, n_ct - p + k) == p)))]

    c = FnContract(FILE, "_decrypt_hmac", ["C15"], lambda: DecModel(mac, mode), params=params, requires=lambda m: m.requires(), post=post,
                      raises={} if mode == "roundtrip" else {"ValueError": None, "IndexError": None}, case=f"{mac},{mode}",
                      note={"roundtrip": "data = IV || CBC(pkcs7(C[0:L])) || tag for any L >= 0, any key: returns C[0:L], raises nothing",
                            "auth": "data arbitrary (N >= 32 + tag): normal return => tag verified over exactly the returned bytes",
                            "short": "N < 32 + tag: no normal return"}[mode])
    c.expect_no_return = mode == "short"
    c.select_terms = True
    return c


class UnwrapModel(Model):
    def __init__(self, kdf, cipher):
        super().__init__()
        self.kdf, self.cipher = kdf, cipher
        self.fields["self.pass2key"] = StrV(kdf)
        self.fields["self.cipher"] = StrV(cipher)
        self.salt = fresh_bytes_("salt")
        self.fields["self.salt"] = self.salt
        self.rounds = z3.Int("rounds")
        self.fields["self.rounds"] = IntV(self.rounds)
        self.pw = fresh_bytes_("pw_utf8")
        self.methods[("passphrase", "encode")] = self.encode
        for t in ("PASS2KEY_MAP", "CIPHER_KEY_SIZES"):
            self.globals[t] = ObjV(t)
        self.items["PASS2KEY_MAP"] = table_item("PASS2KEY_MAP", lambda v: StrV(v))
        self.items["CIPHER_KEY_SIZES"] = table_item("CIPHER_KEY_SIZES", lambda v: IntV(z3.IntVal(int(v))))
        self.globals["hashlib"] = ObjV("hashlib")
        self.methods[("hashlib", "pbkdf2_hmac")] = self.pbkdf2
        self.DK = fresh_bytes_("dk")

    def encode(self, eng, st, args, node, **kw):
        if args or kw:
            raise Unsupported("passphrase.encode with arguments (the specification is UTF-8, the default)")
        return self.pw

    def pbkdf2(self, eng, st, args, node, **kw):
        if kw or len(args) != 5:
            raise Unsupported("pbkdf2_hmac call shape")
        st.ghost["kdf_args"] = tuple(args)
        st.ghost["kdf_calls"] = st.ghost.get("kdf_calls", 0) + 1
        return BytesV(eng.as_int(args[4], st, node), self.DK.at)


def _unwrap(kdf, cipher):
    def post(eng, st, rv):
        m = eng.model
        a = st.ghost.get("kdf_args")
        if a is None or st.ghost.get("kdf_calls") != 1:
            return [("derives_the_key_with_one_pbkdf2_call", z3.BoolVal(False))]
        h, pw, salt, rounds, dklen = a
        return [("hash_is_the_specified_one", z3.BoolVal(isinstance(h, StrV) and h.s == KDFS[kdf])), ("password_is_the_utf8_passphrase", same_bytes(pw, m.pw)),
                ("salt_is_the_stored_salt", same_bytes(salt, m.salt)), ("rounds_are_the_stored_rounds", eng.as_int(rounds, st, None) == m.rounds),
                ("key_length_matches_the_cipher", eng.as_int(dklen, st, None) == CIPHERS[cipher]),
                ("returns_the_derived_key", z3.And(rv.n == CIPHERS[cipher], same_bytes(rv, BytesV(rv.n, m.DK.at))) if isinstance(rv, BytesV) else z3.BoolVal(False))]

    return FnContract(FILE, "Phrase.unwrap", ["C15"], lambda: UnwrapModel(kdf, cipher), params=lambda m: {"self": ObjV("self"), "passphrase": ObjV("passphrase")},
                      requires=lambda m: [m.rounds >= 1], post=post, case=f"{kdf},{cipher}")


class PairModel(Model):
    def __init__(self):
        super().__init__()
        self.hp = z3.Bool("has_phrase")
        self.methods[("self", "has_phrase")] = lambda eng, st, args, node: BoolV(self.hp)
        self.fields["self.wrapped_key"] = ObjV("self.wrapped_key")
        self.fields["self.data"] = fresh_bytes_("pair_data")
        self.fields["self.mac"] = ObjV("self.mac")
        self.KEY = fresh_bytes_("unwrapped")
        self.OUT = fresh_bytes_("unlocked")
        self.methods[("self.wrapped_key", "unwrap")] = self.rec("unwrap", self.KEY)
        self.methods[("self", "_unlock")] = self.rec("_unlock", self.OUT)
        self.global_calls["_decrypt_hmac"] = self.rec("_decrypt_hmac", self.OUT)

    def rec(self, name, result):
        def h(eng, st, args, node, **kw):
            st.ghost[name] = (tuple(args), dict(kw))
            st.ghost[name + "#"] = st.ghost.get(name + "#", 0) + 1
            eng.may_raise("ValueError", st, fresh("ok", B), node)
            return result

        return h


def _pair_contracts():
    def post_uwp(eng, st, rv):
        m = eng.model
        u, k = st.ghost.get("unwrap"), st.ghost.get("_unlock")
        ok = u is not None and k is not None and st.ghost.get("unwrap#") == 1 and st.ghost.get("_unlock#") == 1
        return [("only_phrase_pairs", m.hp), ("key_derived_from_the_given_passphrase", z3.BoolVal(ok and len(u[0]) == 1 and isinstance(u[0][0], ObjV) and u[0][0].path == "passphrase" and not u[1])),
                ("data_unlocked_with_the_derived_key", z3.BoolVal(ok and len(k[0]) == 1 and k[0][0] is m.KEY and not k[1])), ("returns_the_unlocked_data", z3.BoolVal(rv is m.OUT))]

    def post_unlock(eng, st, rv):
        m = eng.model
        d = st.ghost.get("_decrypt_hmac")
        ok = d is not None and st.ghost.get("_decrypt_hmac#") == 1 and len(d[0]) == 3 and not d[1]
        return [("decrypts_the_pair_data_with_the_given_key_and_the_pair_mac",
                 z3.BoolVal(ok and isinstance(d[0][0], ObjV) and d[0][0].path == "key" and d[0][1] is m.fields["self.data"] and isinstance(d[0][2], ObjV) and d[0][2].path == "self.mac")),
                ("returns_the_decrypted_data", z3.BoolVal(rv is m.OUT))]

    return [FnContract(FILE, "Pair.unlock_with_phrase", ["C15"], PairModel, params=lambda m: {"self": ObjV("self"), "passphrase": ObjV("passphrase")}, requires=lambda m: [],
                       post=post_uwp, raises={"TypeError": lambda eng, st: z3.Not(eng.model.hp), "ValueError": None}),
            FnContract(FILE, "Pair._unlock", ["C15"], PairModel, params=lambda m: {"self": ObjV("self"), "key": ObjV("key")}, requires=lambda m: [], post=post_unlock, raises={"ValueError": None})]


class CipherModel(Model):
    def __init__(self):
        super().__init__()
        # environment assumption: pycryptodome is the available crypto module (as in this sandbox); the _pystandalone branch is not reachable
        self.globals["HAS_PYSTANDALONE"] = BoolV(z3.BoolVal(False))
        self.globals["HAS_PYCRYPTODOME"] = BoolV(z3.BoolVal(True))
        self.globals["AES"] = ObjV("AES")
        self.fields["AES.MODE_CBC"] = IntV(z3.Int("AES.MODE_CBC"))
        self.methods[("AES", "new")] = self.new

    def new(self, eng, st, args, node, **kw):
        st.ghost["new"] = (tuple(args), dict(kw))
        return ObjV("cipher_object")


def _create_cipher():
    def post(eng, st, rv):
        a = st.ghost.get("new")
        ok = a is not None and len(a[0]) == 2 and set(a[1]) == {"iv"}
        return [("aes_cbc_with_the_given_key_and_iv", z3.BoolVal(ok and isinstance(a[0][0], ObjV) and a[0][0].path == "key" and isinstance(a[1]["iv"], ObjV) and a[1]["iv"].path == "iv")),
                ("mode_is_cbc", eng.as_int(a[0][1], st, None) == z3.Int("AES.MODE_CBC") if ok else z3.BoolVal(False)), ("returns_the_cipher", z3.BoolVal(isinstance(rv, ObjV) and rv.path == "cipher_object"))]

    return FnContract(FILE, "_create_cipher", ["C15"], CipherModel, params=lambda m: {"key": ObjV("key"), "iv": ObjV("iv")}, requires=lambda m: [], post=post,
                      note="HAS_PYSTANDALONE = False, HAS_PYCRYPTODOME = True (environment of this sandbox)")


class UnlockModel(Model):
    """VMX.unlock_with_phrase: every callee may raise; the only mutation of self.attr is the final update"""

    def __init__(self):
        super().__init__()
        self.enc = z3.Bool("self.encrypted")
        self.fields["self.encrypted"] = BoolV(self.enc)
        self.fields["self.attr"] = ObjV("self.attr")
        self.items["self.attr"] = self.attr_get
        self.methods[("self.attr", "update")] = self.attr_update
        self.globals["KeySafe"] = ObjV("KeySafe")
        self.globals["base64"] = ObjV("base64")
        self.KEY, self.ENC, self.PLAIN = fresh_bytes_("data_key"), fresh_bytes_("enc"), fresh_bytes_("plain")
        self.methods[("KeySafe", "from_text")] = self.rec("from_text", lambda: ObjV("safe"))
        self.methods[("safe", "unseal_with_phrase")] = self.rec("unseal", lambda: TupleV([self.KEY, ObjV("mac")]))
        self.methods[("base64", "b64decode")] = self.rec("b64decode", lambda: self.ENC)
        self.global_calls["_decrypt_hmac"] = self.rec("_decrypt_hmac", lambda: self.PLAIN)
        self.global_calls["_parse_dictionary"] = self.rec("_parse_dictionary", lambda: ObjV("parsed"))
        for p in ("safe", "parsed", "mac"):
            self.truthy[p] = z3.BoolVal(True)

    def rec(self, name, result):
        def h(eng, st, args, node, **kw):
            st.ghost[name] = (tuple(args), dict(kw))
            st.ghost[name + "#"] = st.ghost.get(name + "#", 0) + 1
            eng.may_raise("Exception", st, fresh("ok", B), node)
            return result()

        return h

    def attr_get(self, eng, st, idx, node):
        if not isinstance(idx, StrV):
            raise Unsupported("self.attr[..] with a non-constant key")
        eng.may_raise("KeyError", st, z3.Bool(f"has[{idx.s}]"), node)
        return ObjV(f"attr[{idx.s}]")

    def attr_update(self, eng, st, args, node, **kw):
        st.ghost["updates"] = st.ghost.get("updates", 0) + 1
        st.ghost["update_args"] = (tuple(args), dict(kw))
        return NoneV()


def _unlock_with_phrase():
    def is_obj(v, path):
        return isinstance(v, ObjV) and v.path == path

    def post(eng, st, rv):
        m = eng.model
        g = st.ghost

        def one(name, n):
            return g.get(name) is not None and g.get(name + "#") == 1 and len(g[name][0]) == n and not g[name][1]

        ua = g.get("update_args")
        pd = g.get("_parse_dictionary")
        text = pd[0][0] if pd and pd[0] else None
        return [("only_encrypted_configurations", m.enc),
                ("key_safe_parsed_from_encryption.keysafe", z3.BoolVal(one("from_text", 1) and is_obj(g["from_text"][0][0], "attr[encryption.keysafe]"))),
                ("unsealed_with_the_given_passphrase", z3.BoolVal(one("unseal", 1) and is_obj(g["unseal"][0][0], "passphrase"))),
                ("ciphertext_is_base64_of_encryption.data", z3.BoolVal(one("b64decode", 1) and is_obj(g["b64decode"][0][0], "attr[encryption.data]"))),
                ("decrypted_and_authenticated_with_the_unsealed_key_and_mac", z3.BoolVal(one("_decrypt_hmac", 3) and g["_decrypt_hmac"][0][0] is m.KEY and g["_decrypt_hmac"][0][1] is m.ENC and is_obj(g["_decrypt_hmac"][0][2], "mac"))),
                ("entries_parsed_from_the_decoded_plaintext", z3.BoolVal(one("_parse_dictionary", 1) and isinstance(text, OpaqueV) and text.memo.get(("decoded_from",)) is m.PLAIN)),
                ("attr_updated_once_with_exactly_those_entries", z3.BoolVal(g.get("updates") == 1 and ua is not None and not ua[0] and set(ua[1]) == {"__starstar__"} and is_obj(ua[1]["__starstar__"], "parsed")))]

    unchanged = lambda eng, st: z3.BoolVal(st.ghost.get("updates", 0) == 0)  # noqa: E731
    return FnContract(FILE, "VMX.unlock_with_phrase", ["C15"], UnlockModel, params=lambda m: {"self": ObjV("self"), "passphrase": ObjV("passphrase")}, requires=lambda m: [], post=post,
                      raises={"TypeError": lambda eng, st: z3.And(z3.Not(eng.model.enc), unchanged(eng, st)), "KeyError": unchanged, "Exception": unchanged, "UnicodeDecodeError": unchanged},
                      note="every callee may raise; exceptional postcondition: self.attr received no update (configuration left unchanged)")


def contracts(repo):
    out = []
    for mac in MACS:
        for mode in ("roundtrip", "auth", "short"):
            out.append(_decrypt_hmac(mac, mode))
    for kdf in KDFS:
        for cipher in CIPHERS:
            out.append(_unwrap(kdf, cipher))
    out += _pair_contracts()
    out.append(_create_cipher())
    out.append(_unlock_with_phrase())
    return out


def _corpus(rep):
    import json
    import os
    import subprocess

    from replay.harness import PY, VERIF

    if getattr(rep, "_vmx_corpus", None) is None:
        env = dict(os.environ, PYTHONPATH=f"{rep.repo}:{VERIF}")
        try:
            p = subprocess.run([PY, "-m", "replay.vmx_corpus", str(rep.seed), rep.tier], capture_output=True, text=True, timeout=1500, env=env, cwd=VERIF)
            rep._vmx_corpus = json.loads(p.stdout) if p.returncode == 0 else {"error": p.stderr[-400:]}
        except Exception as e:  # noqa: BLE001
            rep._vmx_corpus = {"error": f"{type(e).__name__}: {e}"}
    return rep._vmx_corpus


def _describe(f):
    return f"encrypted VMX ({f['combo']}, {f['content_len']}-byte configuration) {f['kind']}: {f['detail']}"


def replay(rep, ob_name, qs):
    res = _corpus(rep)
    if "error" in res:
        rep.notes.append(f"vmx corpus failed to run: {res['error']}")
        return None
    if not res["failures"]:
        return None
    f = res["failures"][0]
    return {"found": True, "finding_key": f"vmx:{f['kind']}", "text": _describe(f), "record": {"vmx_case": f, "rerun": "PYTHONPATH=/repo:/verif python -m replay.vmx_corpus <seed> <tier>"}}


def bounded(rep, pid, known):
    res = _corpus(rep)
    if "error" in res:
        rep.errors.append(f"vmx corpus failed to run: {res['error']}")
        return
    rep.bounded.append({"block": "c15.encrypted_vmx", "level": "bounded (real AES-CBC/HMAC/PBKDF2 on generated files; NOT counted as proved)", "evaluations": res["evaluations"],
                        "distinct_nontrivial": sum(res["per_combo"].values()),
                        "rule": "18 cipher x MAC x KDF combinations x content lengths x passphrases/salts/rounds/decoy pairs: unlock == entries; wrong passphrase and every single-byte alteration of both blobs and of the salt must raise and leave attr unchanged",
                        "failures": res["n_failures"], "groups": res["groups"]})
    seen = set()
    for f in res["failures"]:
        if f["kind"] in seen:
            continue
        seen.add(f["kind"])
        p = driver.write_replay(pid, f"bounded.vmx.{f['kind']}", {"property": pid, **f})
        rep.violations.append((p, _describe(f), False))


def trusted(pid):
    return ["A4 AES-CBC decrypt inverts encrypt and is a permutation per block; HMAC is a function of (key, message, hash) that cannot be forged; PBKDF2 per RFC 8018 (hashlib, pycryptodome: assumed callee contracts)",
            "string grammar of the key safe (_parse_key_locator, _split_list, _parse_crypto_dict, unquote, base64) and _parse_dictionary: exercised by the bounded block only (string VCs undecided, DESIGN A.13)",
            "VMX.encrypted (a property) is read as a field; KeySafe.unseal_with_phrase's locator loop is covered by the bounded block (decoy pairs) only",
            "environment: HAS_PYCRYPTODOME, not _pystandalone"]


# ------------------------------------------------------------------------------------------------ KeySafe.unseal_with_phrase (locator loop)
class UnsealModel(Model):
    """the body of `for locator in self.locators` for an arbitrary locator"""

    def __init__(self):
        super().__init__()
        self.hp = z3.Bool("locator.has_phrase()")
        self.oks = []
        self.DATA, self.KEYB = fresh_bytes_("pair_plain"), fresh_bytes_("key_bytes")
        self.methods[("loc", "has_phrase")] = lambda eng, st, args, node: BoolV(self.hp)
        self.methods[("loc", "unlock_with_phrase")] = self.rec("unlock", lambda: self.DATA, "ValueError")
        self.fields["loc.mac"] = ObjV("loc.mac")
        self.global_calls["_parse_crypto_dict"] = self.rec("_parse_crypto_dict", lambda: ObjV("cdict"), "ValueError")
        self.items["cdict"] = self.cdict_get
        self.globals["base64"] = ObjV("base64")
        self.methods[("base64", "b64decode")] = self.rec("b64decode", lambda: self.KEYB, "binascii.Error")
        for p in ("loc", "cdict", "loc.mac"):
            self.truthy[p] = z3.BoolVal(True)

    def rec(self, name, result, exc):
        def h(eng, st, args, node, **kw):
            st.ghost[name] = (tuple(args), dict(kw))
            st.ghost[name + "#"] = st.ghost.get(name + "#", 0) + 1
            ok = fresh("ok", B)
            st.ghost["oks"] = st.ghost.get("oks", ()) + (ok,)
            eng.may_raise(exc, st, ok, node)
            return result()

        return h

    def cdict_get(self, eng, st, idx, node):
        if not isinstance(idx, StrV):
            raise Unsupported("crypto_dict[..] with a non-constant key")
        ok = z3.Bool(f"has[{idx.s}]")
        st.ghost["oks"] = st.ghost.get("oks", ()) + (ok,)
        eng.may_raise("KeyError", st, ok, node)
        return ObjV(f"cdict[{idx.s}]")


def extra_checks(rep, pid, ledger, known):
    """KeySafe.unseal_with_phrase: executed for an arbitrary element of self.locators, the loop body (a) returns -- from inside the loop,
    i.e. at the *first* locator that unlocks -- (base64(crypto_dict['key']), that locator's mac) whenever the locator has a phrase and
    nothing raised, (b) moves on to the next locator only if it has no phrase or a ValueError was swallowed; after the loop the
    function raises."""
    import ast

    from pyvc.engine import Engine, State, find_function

    name = "vmx:KeySafe.unseal_with_phrase/locator_loop"
    why = []
    try:
        node, _ = find_function(rep.repo, FILE, "KeySafe.unseal_with_phrase")
        loops = [n for n in node.body if isinstance(n, ast.For)]
        if len(loops) != 1 or ast.unparse(loops[0].iter) != "self.locators" or not isinstance(loops[0].target, ast.Name):
            raise Unsupported("expected exactly one top-level `for <name> in self.locators`")
        loop = loops[0]
        if any(isinstance(n, ast.Return) for s_ in node.body if s_ is not loop for n in ast.walk(s_)):
            why.append("a return statement outside the locator loop (the result is no longer tied to the locator that unlocked)")
        if not isinstance(node.body[-1], ast.Raise):
            why.append("the function does not end by raising when no locator unlocked")
        m = UnsealModel()
        eng = Engine(m, "vmx:KeySafe.unseal_with_phrase", node, allow_exc=("KeyError", "Exception", "TypeError"))
        st = State(env={"self": ObjV("self"), "passphrase": ObjV("passphrase"), loop.target.id: ObjV("loc")}, hyps=[], filepos={})
        outs = eng.run(loop.body, st)
        n_ret = 0

        def sat(hyps):
            s = z3.Solver()
            s.add(*hyps)
            return s.check() != z3.unsat

        for e, out in outs:
            if isinstance(out, tuple) and out[0] == "return":
                n_ret += 1
                rv = out[1]
                g = e.ghost
                text = g.get("_parse_crypto_dict", ((None,),))[0][0]
                ok = (isinstance(rv, TupleV) and len(rv.items) == 2 and rv.items[0] is m.KEYB and isinstance(rv.items[1], ObjV) and rv.items[1].path == "loc.mac"
                      and g.get("unlock#") == 1 and len(g["unlock"][0]) == 1 and isinstance(g["unlock"][0][0], ObjV) and g["unlock"][0][0].path == "passphrase"
                      and isinstance(text, OpaqueV) and text.memo.get(("decoded_from",)) is m.DATA
                      and g.get("b64decode#") == 1 and isinstance(g["b64decode"][0][0], ObjV) and g["b64decode"][0][0].path == "cdict[key]")
                if not ok:
                    why.append("a return path does not return (b64decode(_parse_crypto_dict(unlock_with_phrase(passphrase).decode())['key']), locator.mac) of the current locator")
                if sat(list(e.hyps) + [z3.Not(m.hp)]):
                    why.append("a locator without a phrase can produce the result")
            elif out in (None, "continue"):
                oks = list(e.ghost.get("oks", ()))
                # moving on to the next locator although this one has a phrase and nothing raised
                if sat(list(e.hyps) + [m.hp] + oks):
                    why.append("the loop moves on to the next locator although the current one has a phrase and nothing raised (no return at the first success)")
        if n_ret == 0:
            why.append("the loop body never returns")
        for exc_state, exc, _n in eng.raised:
            pass  # other exceptions propagate: unlocking fails with an error
    except Unsupported as e:
        rep.unsupported.append(f"{name}: unsupported({e})")
        return
    ok = not why
    rep.functions.append({"function": f"{FILE}:KeySafe.unseal_with_phrase (locator loop body + function shape)", "contract": "first locator that unlocks decides (key, mac); ValueError only moves on; raises when none", "props": ["C15"]})
    rep.obligations[name] = {"verdict": "discharged" if ok else "undischarged", "atoms": len(outs) if not why else 1, "ms": 0, "backends": {"z3-5.1"}, "stages": set(), "line": node.lineno, "props": ["C15"]}
    if not ok:
        r = replay(rep, name, None)
        p = driver.write_replay(pid, name, {"property": pid, "obligation": name, "verifier_output": "; ".join(sorted(set(why))), **({"replayed": r["record"]} if r else {})})
        rep.violations.append((p, "; ".join(sorted(set(why))) + (f" -- replayed: {r['text']}" if r else ""), r is None))
