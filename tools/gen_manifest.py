"""Regenerates MANIFEST.json from pyvc/registry.py + tools/manifest_texts.py and validates it against the schema."""
import json, os, sys
sys.path.insert(0, os.path.dirname(os.path.dirname(os.path.abspath(__file__))))
from pyvc.registry import PROPS
from tools.manifest_texts import TEXTS, NOT_APPLICABLE_REASONS
import jsonschema

props = [json.loads(l) for l in open('properties.jsonl')]
checks = []
for p in props:
    pid = p['id']
    if pid not in PROPS:
        continue
    t = TEXTS[pid]
    checks.append({
        "property_id": pid,
        "quick_cmd": f"./check {pid} --tier quick",
        "thorough_cmd": f"./check {pid} --tier thorough",
        "evidence_file": f"/verif/evidence/{pid}.json",
        "replay_cmd_template": f"./check {pid} --replay {{path}}",
        "engine": "pyvc",
        "level_claimed": {"category": PROPS[pid].get("level", "proof"), "text": t["text"], "design_ref": t.get("design_ref", "DESIGN.md section 7")},
        "level_note": t["note"],
        "technique": PROPS[pid].get("technique", ""),
    })
na = [{"property_id": p['id'], "reason": NOT_APPLICABLE_REASONS.get(p['id'], "check not built yet in this session (work in progress; see DESIGN.md section 11 for the order of work)")}
      for p in props if p['id'] not in PROPS]
m = {
    "version": 1,
    "setup_cmd": "./setup.sh",
    "hooks": {"guard": "FOX_IT_DISSECT_HYPERVISOR_VERIF", "enable": "no source hooks: contracts are sidecars under /verif/contracts and the functions are extracted from /repo's working tree with ast on every run; ./check exports FOX_IT_DISSECT_HYPERVISOR_VERIF=1 for uniformity",
              "baseline_off_cmd": "cd /repo && /venv/bin/python -m pytest -ra -q -p no:cacheprovider --timeout=900 --continue-on-collection-errors",
              "source_commits": [], "add_only": True},
    "engines": [{"name": "pyvc", "path": "/verif/pyvc", "serves_properties": [c["property_id"] for c in checks],
                 "kind_free_text": "contract-based deductive verification: forward symbolic execution of the real functions' AST (read from /repo every run) into per-path, per-conjunct verification conditions, discharged by z3 5.1 (cvc5 1.0.3 / z3 4.8 on unknown); sidecar contracts; replay of counterexamples on the real code; bounded stand-ins labelled as such"}],
    "checks": checks,
    "not_applicable": na,
    "notes": "Exit codes of ./check: 0 held; 1 VIOLATION (replayed input, or ledger-discharged obligation now failing: no-failing-input-found); 2 UNDECIDED (no VIOLATION line); 3 checker error. fix: commits in /repo are listed in known_findings.json.",
}
jsonschema.validate(m, json.load(open('/root/.vp/MANIFEST.schema.json')))
json.dump(m, open('MANIFEST.json', 'w'), indent=1)
print('MANIFEST ok:', len(checks), 'checks,', len(na), 'not applicable')
