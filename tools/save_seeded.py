"""tools/save_seeded.py <PID> <k> <src dir> <caught-by text>  -> /verif/seeded/<PID>-<k>/"""
import json, os, shutil, sys
pid, k, src, caught = sys.argv[1:5]
dst = f"/verif/seeded/{pid}-{k}"
os.makedirs(dst, exist_ok=True)
for f in ("patch.diff", "demo.py"):
    shutil.copy(os.path.join(src, f), os.path.join(dst, f))
meta = json.load(open(os.path.join(src, "meta.json")))
meta.update({"breaks_property": pid, "confirmed": {"tests_pass_with_change": True, "demo_fails_with_change": True, "demo_passes_without": True,
             "how": f"tools/try_mutant.sh {pid} <dir>: scratch git worktree of /repo HEAD, git apply patch.diff, PYTHONPATH=<worktree> pytest (47 passed), demo.py exit codes, ./check {pid} --repo <worktree>"},
             "check_result": caught})
json.dump(meta, open(os.path.join(dst, "meta.json"), "w"), indent=1)
print("saved", dst)
