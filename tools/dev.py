"""dev helper: run one contract module and print every atom verdict"""
import sys, time, importlib, os
sys.path.insert(0, os.path.dirname(os.path.dirname(os.path.abspath(__file__))))
from pyvc import discharge as D
from pyvc.model import run_contract
from pyvc.engine import reset_names
def main():
    mod = importlib.import_module(sys.argv[1])
    repo = os.environ.get('REPO', '/repo')
    only = sys.argv[2] if len(sys.argv) > 2 else None
    tmo = int(os.environ.get('TMO', '10000'))
    for c in mod.contracts(repo):
        if only and only not in c.name: continue
        reset_names()
        t = time.time(); r = run_contract(repo, c)
        print(f'== {c.name}: {len(r.obligations)} obligation instances, {r.n_paths} paths, gen {time.time()-t:.2f}s', 'UNSUPPORTED ' + r.unsupported if r.unsupported else '')
        qs = D.prepare(r.obligations, shifts_for=D.shifts_by_name(c.shifts), units=c.units)
        cq = D.prepare(r.canaries)
        t = time.time(); D.run_queries(qs + cq, timeout_ms=tmo, jobs=int(os.environ.get("JOBS","16")))
        bad = [q for q in qs if q.verdict != 'unsat']
        for q in sorted(qs, key=lambda q: -q.secs)[:3]:
            if q.secs > 1: print(f'   slow: {q.ob_name} atom{q.atom} {q.stage} {q.secs:.1f}s {q.goal_str[:100]!r}')
        print(f'   {len(qs)} atoms, {len(bad)} not discharged, canaries refuted {sum(1 for q in cq if q.verdict != "unsat")}/{len(cq)}, wall {time.time()-t:.1f}s, solver {sum(q.secs for q in qs):.1f}s')
        for q in bad[:int(os.environ.get('SHOW', '12'))]:
            print(f'   - {q.ob_name} atom{q.atom} line {q.line} path {q.path}: {q.verdict} ({q.stage}) {q.secs:.2f}s {q.detail}\n       goal: {q.goal_str[:200]}')
            if q.model and os.environ.get('MODEL'):
                print('       model:', {k: v for k, v in q.model.items() if not k.startswith(('q!', 'r!')) and len(v) < 60})

if __name__ == '__main__':
    main()
