"""dev helper: run the contracts of one module (each generated in its own process, like ./check) and print atom verdicts
usage: tools/dev.py contracts.vmdk [name-filter]   env: REPO, TMO (ms), SHOW, JOBS"""
import importlib
import os
import sys
import time

sys.path.insert(0, os.path.dirname(os.path.dirname(os.path.abspath(__file__))))
from pyvc import discharge as D  # noqa: E402
from pyvc import driver  # noqa: E402


def main():
    modname = sys.argv[1]
    only = sys.argv[2] if len(sys.argv) > 2 else None
    repo = os.path.abspath(os.environ.get("REPO", "/repo"))
    tmo = int(os.environ.get("TMO", "45000"))
    driver._setup_repo_path(repo)
    mod = importlib.import_module(modname)
    cs = mod.contracts(repo)
    idx = [i for i, c in enumerate(cs) if not only or only in c.name]
    jobs = int(os.environ.get("JOBS", "16"))
    t0 = time.time()
    gens = list(D._pool(jobs).map(driver.generate_contract, [(modname, i, repo, None) for i in idx]))
    print(f"generation wall {time.time() - t0:.1f}s")
    allq = [q for g in gens for q in g["queries"]]
    t = time.time()
    D.run_queries(allq, timeout_ms=tmo, jobs=jobs)
    print(f"solve wall {time.time() - t:.1f}s")
    for g in gens:
        qs = [q for q in g["queries"] if q.kind == "ob"]
        cq = [q for q in g["queries"] if q.kind == "canary"]
        bad = [q for q in qs if q.verdict != "unsat"]
        print(f"== {g['name']}: {g.get('n_obligations', 0)} obligation instances, {g.get('n_paths', 0)} paths, gen {g.get('gen_s', 0)}s",
              ("UNSUPPORTED " + g["unsupported"]) if g["unsupported"] else "", g["error"])
        print(f"   {len(qs)} atoms, {len(bad)} not discharged, canaries refuted {sum(1 for q in cq if q.verdict != 'unsat')}/{len(cq)}, solver {sum(q.secs for q in qs):.1f}s")
        for q in sorted(qs, key=lambda q: -q.secs)[:3]:
            if q.secs > 2:
                print(f"   slow: {q.ob_name} atom{q.atom} {q.stage} {q.secs:.1f}s {q.goal_str[:100]!r}")
        for q in bad[: int(os.environ.get("SHOW", "12"))]:
            print(f"   - {q.ob_name} atom{q.atom} line {q.line} path {q.path}: {q.verdict} ({q.stage}) {q.secs:.2f}s {q.detail}\n       goal: {q.goal_str[:200]}")
            if q.model and os.environ.get("MODEL"):
                print("       model:", {k: v for k, v in q.model.items() if not k.startswith(("q!", "r!", "sq!", "sr!")) and len(v) < 60})


if __name__ == "__main__":
    main()
