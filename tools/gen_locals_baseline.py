"""Record the binding structure (locals in binding order, alpha-invariant hash, per-name binding signatures) of every function under
/repo/dissect/hypervisor: the names the sidecar contracts were written against.  Regenerate after every commit to /repo:
    .venv/bin/python tools/gen_locals_baseline.py [repo]"""
import ast
import json
import os
import sys

sys.path.insert(0, os.path.join(os.path.dirname(os.path.abspath(__file__)), ".."))
from pyvc import alpha

repo = sys.argv[1] if len(sys.argv) > 1 else "/repo"
out = {}
for root, _dirs, files in os.walk(os.path.join(repo, "dissect", "hypervisor")):
    for fn in sorted(files):
        if not fn.endswith(".py"):
            continue
        path = os.path.join(root, fn)
        rel = os.path.relpath(path, repo)
        tree = ast.parse(open(path).read())

        def walk(body, prefix):
            for n in body:
                if isinstance(n, ast.ClassDef):
                    walk(n.body, prefix + [n.name])
                elif isinstance(n, (ast.FunctionDef, ast.AsyncFunctionDef)):
                    key = f"{rel}:{'.'.join(prefix + [n.name])}"
                    if key not in out:  # first definition wins, as in find_function
                        out[key] = alpha.describe(n)

        walk(tree.body, [])
        for cname, d in alpha.describe_classes(tree).items():
            out[f"{rel}::{cname}"] = d
json.dump(out, open(alpha.BASELINE, "w"), indent=0, sort_keys=True)
print(f"{len(out)} functions -> {alpha.BASELINE}")
