"""tools/dump_query.py <module> <contract-name-substring> <obligation-substring> <atom> [path-suffix] -> /tmp/dump_<stage>.smt2 (generated exactly like ./check does)"""
import importlib, os, sys
sys.path.insert(0, os.path.dirname(os.path.dirname(os.path.abspath(__file__))))
from pyvc import driver


def main():
    modname, cname, obsub, atom = sys.argv[1], sys.argv[2], sys.argv[3], int(sys.argv[4])
    suffix = sys.argv[5] if len(sys.argv) > 5 else ""
    repo = os.path.abspath(os.environ.get("REPO", "/repo"))
    driver._setup_repo_path(repo)
    mod = importlib.import_module(modname)
    idx = [i for i, c in enumerate(mod.contracts(repo)) if cname in c.name][0]
    g = driver.generate_contract((modname, idx, repo, None))
    qs = [q for q in g["queries"] if obsub in q.ob_name and q.atom == atom and q.path.endswith(suffix)]
    q = qs[0]
    print(q.ob_name, q.path, len(qs))
    for nm, text in q.stages:
        fn = f"/tmp/dump_{nm.replace('/', '_')}.smt2"
        open(fn, "w").write(text)
        print(fn, len(text))


if __name__ == "__main__":
    main()
