#!/bin/sh
# tools/try_mutant.sh <PID> <mutant-dir> [extra check ids...]  : confirm a seeded change and run the check(s) against it (scratch worktree, removed afterwards)
PID=$1; M=$2; shift 2; CHECKS="$PID $*"
W=/tmp/scratch_mut_$$
git -C /repo worktree add -q --detach $W HEAD || exit 9
cd $W
echo "== clean tree demo:"; PYTHONPATH=$W /venv/bin/python $M/demo.py >/tmp/demo_clean_$$.log 2>&1; echo "   exit $? (expect 0)"
git apply $M/patch.diff || { echo "patch does not apply"; git -C /repo worktree remove --force $W; exit 9; }
echo "== tests with change:"; PYTHONPATH=$W /venv/bin/python -m pytest -q -p no:cacheprovider -x 2>&1 | tail -1
echo "== demo with change:"; PYTHONPATH=$W /venv/bin/python $M/demo.py >/tmp/demo_mut_$$.log 2>&1; echo "   exit $? (expect non-zero)"; tail -2 /tmp/demo_mut_$$.log
for c in $CHECKS; do
  echo "== ./check $c --repo $W"; (cd /verif && ./check $c --repo $W 2>&1 | grep -E "^\[|VIOLATION|UNDECIDED|CHECKER|KNOWN" | cut -c1-260 | sort -r | head -8; )
done
cd /; git -C /repo worktree remove --force $W; rm -f /tmp/demo_clean_$$.log /tmp/demo_mut_$$.log
